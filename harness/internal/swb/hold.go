package swb

// Hold mode: the switchboard queues the messages of selected streams instead of delivering them.
// A scenario then delivers, drops or duplicates each queued message in the order it prescribes
// (message bag with loss, reordering and duplicates).  Additive: a Board without EnableHold behaves
// as before.
//
// Two stream shapes are supported:
//   - one-way streams (the opener writes one message and closes; the handler only reads):
//     the written bytes are one held message (leg "msg"); Deliver starts the handler on a stream
//     pre-filled with the bytes, any number of times (duplicates);
//   - request/response streams (the opener writes a request and reads replies on the same stream):
//     the request is held (leg "req"); delivering it runs the handler, whose complete output is
//     then held as a second message (leg "resp") until it is delivered to the opener.  Dropping
//     either leg resets the opener's end (its read fails).

import (
	"context"
	"encoding/binary"
	"fmt"
	"runtime/debug"
	"sync"
	"time"

	"github.com/gauss-project/aurorafs/pkg/boson"
	"github.com/gauss-project/aurorafs/pkg/p2p"
)

var holds sync.Map // *Board -> *Hold

func holdOf(b *Board) *Hold {
	if v, ok := holds.Load(b); ok {
		return v.(*Hold)
	}
	return nil
}

// Hold is the message queue of a board in hold mode.
type Hold struct {
	board  *Board
	mu     sync.Mutex
	match  func(protocol, stream string) bool
	rpc    func(protocol, stream string) bool
	active bool
	seq    int
	held   []*HeldMsg
}

// HeldMsg is one queued message.
type HeldMsg struct {
	ID       int
	From, To boson.Address
	Protocol string
	Stream   string
	Leg      string // "msg" (one-way), "req", "resp"
	Data     []byte // the bytes written (length-delimited protobuf messages)
	ReqID    int    // leg "resp": ID of the request it answers
	// HandlerErr / HandlerPanic: leg "resp": how the answering handler ended
	HandlerErr   string
	HandlerPanic string

	listed  bool
	handler p2p.HandlerFunc
	headers p2p.Headers
	from    *Port
	call    *rpcCall
}

type rpcCall struct {
	back *pipe // handler -> opener, filled when the resp leg is delivered
}

// Delivery is a running (or finished) handler invocation started by Deliver.
type Delivery struct {
	Done  chan struct{}
	mu    sync.Mutex
	err   string
	panic string
}

// Result reports how the handler ended (valid after Done is closed).
func (d *Delivery) Result() (err string, panicText string) {
	d.mu.Lock()
	defer d.mu.Unlock()
	return d.err, d.panic
}

// Finished tells whether the handler has returned.
func (d *Delivery) Finished() bool {
	select {
	case <-d.Done:
		return true
	default:
		return false
	}
}

// EnableHold switches the board to hold mode for the streams selected by match; rpc tells which of
// them are request/response streams.  Holding starts inactive: call SetActive(true).
func (b *Board) EnableHold(match, rpc func(protocol, stream string) bool) *Hold {
	h := &Hold{board: b, match: match, rpc: rpc}
	holds.Store(b, h)
	return h
}

// DisableHold removes the hold queue of the board (frees the registry entry).
func (b *Board) DisableHold() { holds.Delete(b) }

// SetActive turns queueing on or off (off: matching streams are connected directly, as without hold).
func (h *Hold) SetActive(on bool) {
	h.mu.Lock()
	h.active = on
	h.mu.Unlock()
}

func (h *Hold) matches(protocol, stream string) bool {
	h.mu.Lock()
	on := h.active
	h.mu.Unlock()
	return on && h.match(protocol, stream)
}

// complete tells whether b starts with at least one complete length-delimited message.
func complete(b []byte) bool {
	n, k := binary.Uvarint(b)
	if k <= 0 {
		return false
	}
	return uint64(len(b)-k) >= n
}

func (h *Hold) open(from, to *Port, hd p2p.HandlerFunc, hdrs p2p.Headers, protocol, stream string) p2p.Stream {
	h.mu.Lock()
	defer h.mu.Unlock()
	h.seq++
	m := &HeldMsg{ID: h.seq, From: from.addr, To: to.addr, Protocol: protocol, Stream: stream, Leg: "msg",
		handler: hd, headers: hdrs, from: from}
	if h.rpc != nil && h.rpc(protocol, stream) {
		m.Leg = "req"
		m.call = &rpcCall{back: newPipe()}
	}
	h.held = append(h.held, m)
	return &holdStream{h: h, m: m}
}

// holdStream is the opener's end of a held stream.
type holdStream struct {
	h *Hold
	m *HeldMsg
}

func (s *holdStream) Write(b []byte) (int, error) {
	s.h.mu.Lock()
	defer s.h.mu.Unlock()
	s.m.Data = append(s.m.Data, b...)
	if !s.m.listed && complete(s.m.Data) {
		s.m.listed = true
	}
	return len(b), nil
}

func (s *holdStream) Read(b []byte) (int, error) {
	if s.m.call == nil {
		// one-way: the handler never answers; behave like a peer that closed its side
		return 0, ErrClosed
	}
	return s.m.call.back.read(b)
}

func (s *holdStream) Close() error                 { return nil }
func (s *holdStream) FullClose() error             { return nil }
func (s *holdStream) Headers() p2p.Headers         { return s.m.headers }
func (s *holdStream) ResponseHeaders() p2p.Headers { return s.m.headers }
func (s *holdStream) Reset() error {
	if s.m.call != nil {
		s.m.call.back.doReset()
	}
	return nil
}

// List returns a snapshot of the queued messages that are complete (oldest first).
func (h *Hold) List() []HeldMsg {
	h.mu.Lock()
	defer h.mu.Unlock()
	out := make([]HeldMsg, 0, len(h.held))
	for _, m := range h.held {
		if m.listed {
			c := *m
			c.Data = append([]byte(nil), m.Data...)
			out = append(out, c)
		}
	}
	return out
}

func (h *Hold) take(id int, keep bool) (*HeldMsg, error) {
	h.mu.Lock()
	defer h.mu.Unlock()
	for i, m := range h.held {
		if m.ID == id && m.listed {
			if keep {
				if m.Leg != "msg" {
					return nil, fmt.Errorf("swb hold: leg %q cannot be duplicated", m.Leg)
				}
				return m, nil
			}
			h.held = append(h.held[:i], h.held[i+1:]...)
			return m, nil
		}
	}
	return nil, fmt.Errorf("swb hold: no queued message %d", id)
}

// Drop loses a queued message. For a request/response stream the opener's read fails.
func (h *Hold) Drop(id int) error {
	m, err := h.take(id, false)
	if err != nil {
		return err
	}
	if m.call != nil {
		m.call.back.doReset()
	}
	return nil
}

// Deliver hands a queued message to its receiver.  keep leaves it in the queue as well (a
// duplicate; one-way messages only).  Legs "msg" and "req" start the receiver's stream handler
// and return its Delivery; leg "resp" releases the bytes to the opener and returns a finished
// Delivery.  A panic of the handler is recovered and reported in the Delivery (the caller decides
// what a crashed node means).
func (h *Hold) Deliver(id int, keep bool) (*Delivery, error) {
	m, err := h.take(id, keep)
	if err != nil {
		return nil, err
	}
	d := &Delivery{Done: make(chan struct{})}
	if m.Leg == "resp" {
		if len(m.Data) > 0 {
			_, _ = m.call.back.write(m.Data)
		}
		m.call.back.close()
		close(d.Done)
		return d, nil
	}
	in := newPipe()
	_, _ = in.write(append([]byte(nil), m.Data...))
	var rec *recorder
	if m.Leg == "msg" {
		in.close() // what a one-way handler might write is discarded
	} else {
		rec = &recorder{}
	}
	remote := &handlerStream{r: in, rec: rec, headers: m.headers}
	h.board.handlers.Add(1)
	go func() {
		defer h.board.handlers.Done()
		defer close(d.Done)
		var herr error
		func() {
			defer func() {
				if r := recover(); r != nil {
					d.mu.Lock()
					d.panic = fmt.Sprintf("%v\n%s", r, debug.Stack())
					d.mu.Unlock()
				}
			}()
			herr = m.handler(context.Background(), p2p.Peer{Address: m.from.addr, Mode: m.from.mode}, remote)
		}()
		d.mu.Lock()
		if herr != nil {
			d.err = herr.Error()
		}
		e, p := d.err, d.panic
		d.mu.Unlock()
		if m.Leg == "req" {
			h.mu.Lock()
			h.seq++
			h.held = append(h.held, &HeldMsg{ID: h.seq, From: m.To, To: m.From, Protocol: m.Protocol, Stream: m.Stream,
				Leg: "resp", Data: rec.bytes(), ReqID: m.ID, HandlerErr: e, HandlerPanic: p, listed: true, call: m.call})
			h.mu.Unlock()
		}
	}()
	return d, nil
}

// Wait polls until cond holds for the current queue (true) or the timeout passed (false).
func (h *Hold) Wait(cond func([]HeldMsg) bool, timeout time.Duration) bool {
	deadline := time.Now().Add(timeout)
	for {
		if cond(h.List()) {
			return true
		}
		if time.Now().After(deadline) {
			return false
		}
		time.Sleep(300 * time.Microsecond)
	}
}

type recorder struct {
	mu  sync.Mutex
	buf []byte
}

func (r *recorder) write(b []byte) {
	r.mu.Lock()
	r.buf = append(r.buf, b...)
	r.mu.Unlock()
}
func (r *recorder) bytes() []byte {
	r.mu.Lock()
	defer r.mu.Unlock()
	return append([]byte(nil), r.buf...)
}

// handlerStream is the receiver's end of a delivered message.
type handlerStream struct {
	r       *pipe
	rec     *recorder // request/response: what the handler writes
	headers p2p.Headers
}

func (s *handlerStream) Read(b []byte) (int, error) { return s.r.read(b) }
func (s *handlerStream) Write(b []byte) (int, error) {
	if s.rec != nil {
		s.rec.write(b)
	}
	return len(b), nil
}
func (s *handlerStream) Close() error                 { return nil }
func (s *handlerStream) FullClose() error             { return nil }
func (s *handlerStream) Reset() error                 { s.r.doReset(); return nil }
func (s *handlerStream) Headers() p2p.Headers         { return s.headers }
func (s *handlerStream) ResponseHeaders() p2p.Headers { return s.headers }
