// Package refhash is the drivers' independent evaluator of hash terms for the
// chunk family (C04, C05, C06).  It never calls pkg/bmt, pkg/bmtpool, pkg/cac,
// pkg/soc or pkg/crypto of the repository under test: the BMT is computed from its
// recursive definition with legacy keccak256 (golang.org/x/crypto/sha3), owners
// and signature recovery with btcec directly.
//
// It contains no verdict: it reduces bytes to the booleans / lengths the TLA+
// judge evaluates ValidCAC / ValidSOC over.
package refhash

import (
	"bytes"
	"crypto/ecdsa"
	"fmt"
	"hash"

	"github.com/btcsuite/btcd/btcec"
	"golang.org/x/crypto/sha3"
)

const (
	SegSize  = 32
	Segments = 8192               // leaves of the tree
	CS       = SegSize * Segments // 262144, maximum data bytes under one chunk
	Span     = 8
	IDSize   = 32
	SigSize  = 65
	SocMin   = IDSize + SigSize + Span
)

// Keccak is legacy keccak256 over the concatenation of the arguments.
func Keccak(parts ...[]byte) []byte {
	h := sha3.NewLegacyKeccak256()
	for _, p := range parts {
		h.Write(p)
	}
	return h.Sum(nil)
}

var zeroTree [][]byte // zeroTree[k] = root of a subtree of 2^k all-zero segments

func init() {
	z := make([]byte, SegSize)
	zeroTree = append(zeroTree, z)
	for n := 1; n < Segments; n *= 2 {
		z = Keccak(z, z)
		zeroTree = append(zeroTree, z)
	}
}

// subtree is the root over 2^k segments whose content is data (zero padded).
func subtree(h hash.Hash, data []byte, k int) []byte {
	if len(data) == 0 {
		return zeroTree[k]
	}
	if k == 0 {
		seg := make([]byte, SegSize)
		copy(seg, data)
		return seg
	}
	half := (1 << uint(k-1)) * SegSize
	var l, r []byte
	if len(data) <= half {
		l, r = subtree(h, data, k-1), zeroTree[k-1]
	} else {
		l, r = subtree(h, data[:half], k-1), subtree(h, data[half:], k-1)
	}
	h.Reset()
	h.Write(l)
	h.Write(r)
	return h.Sum(nil)
}

// BMT is the chunk hash of a payload (8-byte span followed by at most CS data
// bytes): keccak(span || root of the binary Merkle tree over the zero-padded data).
// Defined only for 8 <= len(payload) <= CS+8.
func BMT(payload []byte) ([]byte, error) {
	if len(payload) < Span || len(payload) > CS+Span {
		return nil, fmt.Errorf("refhash: BMT undefined for a payload of %d bytes", len(payload))
	}
	root := subtree(sha3.NewLegacyKeccak256(), payload[Span:], 13)
	return Keccak(payload[:Span], root), nil
}

// AddrIsBMT reports whether addr is the BMT hash of the whole payload.  Outside the
// domain of the definition (payload shorter than a span or longer than CS+8) no
// address is the hash of the payload: false.
func AddrIsBMT(addr, payload []byte) bool {
	h, err := BMT(payload)
	if err != nil {
		return false
	}
	return bytes.Equal(h, addr)
}

// AddrIsBMTOfPrefix reports whether addr is the BMT hash of the first CS+8 bytes of
// an over-long payload (diagnostic only; not used by any validity formula).
func AddrIsBMTOfPrefix(addr, payload []byte) bool {
	if len(payload) <= CS+Span {
		return false
	}
	return AddrIsBMT(addr, payload[:CS+Span])
}

// Owner is the Ethereum address of a public key: last 20 bytes of keccak(X || Y).
func Owner(pub *ecdsa.PublicKey) []byte {
	b := (*btcec.PublicKey)(pub).SerializeUncompressed()
	return Keccak(b[1:])[12:]
}

// SocAddress is keccak(id || owner).
func SocAddress(id, owner []byte) []byte { return Keccak(id, owner) }

// EthDigest is the digest a signer with the Ethereum prefix signs for a 32-byte message.
func EthDigest(msg []byte) []byte {
	return Keccak([]byte(fmt.Sprintf("\x19Ethereum Signed Message:\n%d", len(msg))), msg)
}

// SocView is what the independent evaluator sees in (addr, payload) read as a
// single-owner chunk: id(32) || signature(65: r,s,v) || wrapped payload (span || data).
type SocView struct {
	LongEnough bool   // payload holds id, signature and a span
	WrappedLen int    // length of the wrapped payload (0 when !LongEnough)
	WrappedOK  bool   // wrapped payload is within 8 .. CS+8 (its BMT address exists)
	Recovered  bool   // the signature over keccak(id || wrapped address) recovers some key
	Owner      []byte // the Ethereum address of the recovered key
	Commits    bool   // addr == keccak(id || recovered owner)
	ID         []byte
	Wrapped    []byte
}

// Soc evaluates the components of single-owner validity independently.
func Soc(addr, payload []byte) SocView {
	var v SocView
	if len(payload) < SocMin {
		return v
	}
	v.LongEnough = true
	v.ID = payload[:IDSize]
	sig := payload[IDSize : IDSize+SigSize]
	v.Wrapped = payload[IDSize+SigSize:]
	v.WrappedLen = len(v.Wrapped)
	waddr, err := BMT(v.Wrapped)
	if err != nil {
		return v
	}
	v.WrappedOK = true
	digest := EthDigest(Keccak(v.ID, waddr))
	// Ethereum (r, s, v) format: v is 27 + recovery id (0..3).  Other values of v are not
	// signatures in this format (btcec would read v+4 as the same recovery id with a
	// "compressed key" flag; that is an encoding of btcec's compact format, not of this one).
	if sig[64] < 27 || sig[64] > 30 {
		return v
	}
	compact := make([]byte, 65)
	compact[0] = sig[64]
	copy(compact[1:], sig[:64])
	var pub *btcec.PublicKey
	func() {
		defer func() { _ = recover() }()
		pub, _, err = btcec.RecoverCompact(btcec.S256(), compact, digest)
	}()
	if err != nil || pub == nil {
		return v
	}
	v.Recovered = true
	v.Owner = Owner((*ecdsa.PublicKey)(pub))
	v.Commits = bytes.Equal(SocAddress(v.ID, v.Owner), addr)
	return v
}

// SignSoc builds id || sig || wrapped with a signature by key over
// keccak(id || msgAddr) (fixtures "known by construction": msgAddr may deliberately
// differ from the wrapped payload's address).
func SignSoc(key *ecdsa.PrivateKey, id, msgAddr, wrapped []byte) ([]byte, error) {
	digest := EthDigest(Keccak(id, msgAddr))
	c, err := btcec.SignCompact(btcec.S256(), (*btcec.PrivateKey)(key), digest, false)
	if err != nil {
		return nil, err
	}
	sig := make([]byte, 65)
	copy(sig, c[1:])
	sig[64] = c[0]
	out := append([]byte{}, id...)
	out = append(out, sig...)
	out = append(out, wrapped...)
	return out, nil
}

// Key derives a secp256k1 key deterministically from 32 bytes.
func Key(seed []byte) *ecdsa.PrivateKey {
	priv, _ := btcec.PrivKeyFromBytes(btcec.S256(), seed)
	return (*ecdsa.PrivateKey)(priv)
}
