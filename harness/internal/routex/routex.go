// Package routex holds what the routetab and multicast conformance drivers
// share: small-integer <-> overlay address maps and a p2p.Streamer that QUEUES
// every message written to it instead of delivering it, so that the driver
// (following a TLC-generated schedule) decides which message is delivered,
// lost, and when.  No oracle here.
package routex

import (
	"bytes"
	"context"
	"errors"
	"io"
	"sync"

	"github.com/gauss-project/aurorafs/pkg/boson"
	"github.com/gauss-project/aurorafs/pkg/p2p"
)

// FixedAddr is the overlay address used for abstract node i where no key
// material is needed: byte 0 = i, the rest a fixed pattern.
func FixedAddr(i int) boson.Address {
	b := make([]byte, 32)
	b[0] = byte(i)
	for k := 1; k < 32; k++ {
		b[k] = byte(0xA0 + k)
	}
	return boson.NewAddress(b)
}

// Book maps abstract node numbers to addresses and back.
type Book struct {
	addr map[int]boson.Address
	num  map[string]int
}

func NewBook() *Book { return &Book{addr: map[int]boson.Address{}, num: map[string]int{}} }

func (b *Book) Set(i int, a boson.Address) {
	b.addr[i] = a
	b.num[a.ByteString()] = i
}

// Addr returns the address of node i (a FixedAddr is registered on demand).
func (b *Book) Addr(i int) boson.Address {
	if a, ok := b.addr[i]; ok {
		return a
	}
	a := FixedAddr(i)
	b.Set(i, a)
	return a
}

// Num returns the number of an address, or -1 (logged as such) when unknown.
func (b *Book) Num(a boson.Address) int {
	if n, ok := b.num[a.ByteString()]; ok {
		return n
	}
	return -1
}

func (b *Book) Nums(as []boson.Address) []int {
	out := make([]int, 0, len(as))
	for _, a := range as {
		out = append(out, b.Num(a))
	}
	return out
}

func (b *Book) NumsBytes(as [][]byte) []int {
	out := make([]int, 0, len(as))
	for _, a := range as {
		out = append(out, b.Num(boson.NewAddress(a)))
	}
	return out
}

func (b *Book) Addrs(is []int) []boson.Address {
	out := make([]boson.Address, 0, len(is))
	for _, i := range is {
		out = append(out, b.Addr(i))
	}
	return out
}

// ---------------------------------------------------------------------------
// queued streams
// ---------------------------------------------------------------------------

// Sent is one stream opened by a node: who opened it, to whom, on which
// protocol stream, and the bytes written to it so far.
type Sent struct {
	Seq      int
	From     int
	To       boson.Address
	Protocol string
	Stream   string
	Relay    bool // opened with NewConnChainRelayStream / NewRelayStream

	mu      sync.Mutex
	out     bytes.Buffer // written by the opener
	reply   []byte       // what the opener reads back (played by the harness)
	rpos    int
	closed  bool
	readEOF bool
}

func (s *Sent) Bytes() []byte {
	s.mu.Lock()
	defer s.mu.Unlock()
	return append([]byte(nil), s.out.Bytes()...)
}

// qstream is the p2p.Stream handed to the code under test for an outgoing stream.
type qstream struct{ s *Sent }

func (q *qstream) Read(p []byte) (int, error) {
	q.s.mu.Lock()
	defer q.s.mu.Unlock()
	if q.s.rpos >= len(q.s.reply) {
		return 0, io.EOF
	}
	n := copy(p, q.s.reply[q.s.rpos:])
	q.s.rpos += n
	return n, nil
}
func (q *qstream) Write(p []byte) (int, error) {
	q.s.mu.Lock()
	defer q.s.mu.Unlock()
	if q.s.closed {
		return 0, errors.New("write on closed stream")
	}
	return q.s.out.Write(p)
}
func (q *qstream) Close() error                 { return nil }
func (q *qstream) FullClose() error             { return nil }
func (q *qstream) Reset() error                 { return nil }
func (q *qstream) Headers() p2p.Headers         { return nil }
func (q *qstream) ResponseHeaders() p2p.Headers { return nil }

// Net is the shared message queue of one scenario.
type Net struct {
	mu     sync.Mutex
	seq    int
	queue  []*Sent
	Refuse func(from int, to boson.Address, stream string) error  // optional: NewStream error
	Reply  func(from int, to boson.Address, stream string) []byte // optional: bytes the opener reads back
	// optional: called (on the opener's goroutine, no lock held) before an outgoing stream is queued; it may
	// block, which holds the opener up at this send (a slow network) until the driver lets it go on
	Gate func(from int, to boson.Address, stream string)
}

func NewNet() *Net { return &Net{} }

// Streamer returns the p2p.Streamer of node `from`.
func (n *Net) Streamer(from int) p2p.Streamer { return &streamer{n: n, from: from} }

type streamer struct {
	n    *Net
	from int
}

func (st *streamer) open(to boson.Address, protocol, stream string, relay bool) (p2p.Stream, error) {
	if st.n.Gate != nil {
		st.n.Gate(st.from, to, stream)
	}
	if st.n.Refuse != nil {
		if err := st.n.Refuse(st.from, to, stream); err != nil {
			return nil, err
		}
	}
	s := &Sent{From: st.from, To: to, Protocol: protocol, Stream: stream, Relay: relay}
	if st.n.Reply != nil {
		s.reply = st.n.Reply(st.from, to, stream)
	}
	st.n.mu.Lock()
	st.n.seq++
	s.Seq = st.n.seq
	st.n.queue = append(st.n.queue, s)
	st.n.mu.Unlock()
	return &qstream{s: s}, nil
}

func (st *streamer) NewStream(_ context.Context, to boson.Address, _ p2p.Headers, protocol, _ string, stream string) (p2p.Stream, error) {
	return st.open(to, protocol, stream, false)
}
func (st *streamer) NewRelayStream(_ context.Context, to boson.Address, _ p2p.Headers, protocol, _ string, stream string, _ bool) (p2p.Stream, error) {
	return st.open(to, protocol, stream, true)
}
func (st *streamer) NewConnChainRelayStream(_ context.Context, to boson.Address, _ p2p.Headers, protocol, _ string, stream string) (p2p.Stream, error) {
	return st.open(to, protocol, stream, true)
}

// Seq is the sequence number of the last stream opened.
func (n *Net) Seq() int {
	n.mu.Lock()
	defer n.mu.Unlock()
	return n.seq
}

// Queue returns the streams still queued (oldest first).
func (n *Net) Queue() []*Sent {
	n.mu.Lock()
	defer n.mu.Unlock()
	return append([]*Sent(nil), n.queue...)
}

// Since returns the queued streams opened after sequence number seq.
func (n *Net) Since(seq int) []*Sent {
	n.mu.Lock()
	defer n.mu.Unlock()
	var out []*Sent
	for _, s := range n.queue {
		if s.Seq > seq {
			out = append(out, s)
		}
	}
	return out
}

// Take removes a stream from the queue (it is being delivered or lost).
func (n *Net) Take(s *Sent) {
	n.mu.Lock()
	defer n.mu.Unlock()
	for i, q := range n.queue {
		if q == s {
			n.queue = append(n.queue[:i], n.queue[i+1:]...)
			break
		}
	}
	s.mu.Lock()
	s.closed = true
	s.mu.Unlock()
}

// Incoming is the p2p.Stream handed to a handler of the code under test: it
// reads the given bytes and records what the handler writes back.
type Incoming struct {
	in  *bytes.Reader
	mu  sync.Mutex
	Out bytes.Buffer
}

func NewIncoming(b []byte) *Incoming { return &Incoming{in: bytes.NewReader(b)} }

func (s *Incoming) Read(p []byte) (int, error) { return s.in.Read(p) }
func (s *Incoming) Write(p []byte) (int, error) {
	s.mu.Lock()
	defer s.mu.Unlock()
	return s.Out.Write(p)
}
func (s *Incoming) Written() []byte {
	s.mu.Lock()
	defer s.mu.Unlock()
	return append([]byte(nil), s.Out.Bytes()...)
}
func (s *Incoming) Close() error                 { return nil }
func (s *Incoming) FullClose() error             { return nil }
func (s *Incoming) Reset() error                 { return nil }
func (s *Incoming) Headers() p2p.Headers         { return nil }
func (s *Incoming) ResponseHeaders() p2p.Headers { return nil }

// Handler finds a stream handler in a protocol spec.
func Handler(spec p2p.ProtocolSpec, stream string) p2p.HandlerFunc {
	for _, s := range spec.StreamSpecs {
		if s.Name == stream {
			return s.Handler
		}
	}
	return nil
}
